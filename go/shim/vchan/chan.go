// Package vchan models the channels of instrumented files. Buffered: Send and Recv are blocking
// scheduling points (enabled iff the buffer is not full / not empty). Unbuffered: a sender offers
// its value (one step, one offer at a time), blocks until a receiver has taken it (second step)
// and panics there if the channel was closed meanwhile; Recv is enabled iff an offer is pending or
// the channel is closed. A select may receive from an unbuffered channel; sending to one from a
// select is refused (would need receiver registration).
package vchan

import (
	"reflect"
	"unsafe"

	"github.com/welllog/golib/vshim/core"
)

type Chan[T any] struct {
	real   chan T
	buf    []T
	clk    []core.VC // clock travelling with each buffered message
	cap    int
	closed bool
	sent   int
	recvd  int
	slot   []core.VC // clock of the receive that freed slot i (k-th receive happens before the (k+cap)-th send completes)

	unbuf bool
	offer *offerT[T] // unbuffered: the value a blocked sender holds out
}

type offerT[T any] struct {
	v     T
	vc    core.VC // sender's clock
	rvc   core.VC // receiver's clock (a rendezvous synchronises both ways)
	taken bool
}

func Make[T any](n int) *Chan[T] {
	if !core.Controlled {
		return &Chan[T]{real: make(chan T, n), cap: n}
	}
	if n < 0 {
		panic("makechan: size out of range") // like the original
	}
	if n == 0 {
		return &Chan[T]{unbuf: true}
	}
	return &Chan[T]{cap: n, slot: make([]core.VC, n)}
}

func (c *Chan[T]) Send(v T) {
	if !core.Controlled {
		c.real <- v
		return
	}
	if c == nil {
		core.Point(core.KSend, nil, func() bool { return false })
		return
	}
	if c.unbuf {
		c.sendUnbuf(v)
		return
	}
	core.Point(core.KSend, unsafe.Pointer(c), func() bool { return c.closed || len(c.buf) < c.cap })
	if core.Exiting() {
		return
	}
	if c.closed {
		panic("send on closed channel")
	}
	if len(c.buf) >= c.cap {
		panic("vchan: send on a full channel in a sequential phase (would block forever)")
	}
	core.Acquire(&c.slot[c.sent%c.cap])
	var vc core.VC
	core.Release(&vc, false)
	c.buf = append(c.buf, v)
	c.clk = append(c.clk, vc)
	c.sent++
	core.Done(core.KSend, unsafe.Pointer(c), 0)
}

func (c *Chan[T]) sendUnbuf(v T) {
	core.Point(core.KSend, unsafe.Pointer(c), func() bool { return c.closed || c.offer == nil })
	if core.Exiting() {
		return
	}
	if c.closed {
		panic("send on closed channel")
	}
	if core.Sequential() {
		panic("vchan: send on an unbuffered channel in a sequential phase (would block forever)")
	}
	o := &offerT[T]{v: v}
	core.Release(&o.vc, false)
	c.offer = o
	core.Done(core.KSend, unsafe.Pointer(c), 1)
	core.Point(core.KSend, unsafe.Pointer(c), func() bool { return o.taken || c.closed })
	if core.Exiting() {
		return
	}
	if !o.taken {
		if c.offer == o {
			c.offer = nil
		}
		panic("send on closed channel")
	}
	core.Acquire(&o.rvc)
	core.Done(core.KSend, unsafe.Pointer(c), 2)
}

func (c *Chan[T]) Recv() T {
	v, _ := c.Recv2()
	return v
}

func (c *Chan[T]) Recv2() (T, bool) {
	var zero T
	if !core.Controlled {
		v, ok := <-c.real
		return v, ok
	}
	if c == nil {
		core.Point(core.KRecv, nil, func() bool { return false })
		return zero, false
	}
	if c.unbuf {
		core.Point(core.KRecv, unsafe.Pointer(c), func() bool { return c.closed || c.offer != nil })
		if core.Exiting() {
			return zero, false
		}
		if c.closed { // a sender still blocked on a closed channel panics on its side
			core.Done(core.KRecv, unsafe.Pointer(c), 0)
			return zero, false
		}
		if c.offer == nil {
			panic("vchan: receive from an unbuffered channel without sender in a sequential phase (would block forever)")
		}
		o := c.offer
		c.offer = nil
		core.Acquire(&o.vc)
		core.Release(&o.rvc, false)
		o.taken = true
		core.Done(core.KRecv, unsafe.Pointer(c), 1)
		return o.v, true
	}
	core.Point(core.KRecv, unsafe.Pointer(c), func() bool { return c.closed || len(c.buf) > 0 })
	if core.Exiting() {
		return zero, false
	}
	if len(c.buf) == 0 {
		if c.closed {
			core.Done(core.KRecv, unsafe.Pointer(c), 0)
			return zero, false
		}
		panic("vchan: receive from an empty channel in a sequential phase (would block forever)")
	}
	v := c.buf[0]
	core.Acquire(&c.clk[0])
	c.buf = c.buf[1:]
	c.clk = c.clk[1:]
	core.Release(&c.slot[c.recvd%c.cap], false)
	c.recvd++
	core.Done(core.KRecv, unsafe.Pointer(c), 0)
	return v, true
}

func (c *Chan[T]) Close() {
	if !core.Controlled {
		close(c.real)
		return
	}
	core.Point(core.KClose, unsafe.Pointer(c), nil)
	if core.Exiting() {
		return
	}
	if c.closed {
		panic("close of closed channel")
	}
	c.closed = true
	core.Done(core.KClose, unsafe.Pointer(c), 0)
}

func (c *Chan[T]) Len() int {
	if !core.Controlled {
		return len(c.real)
	}
	if c == nil {
		return 0
	}
	return len(c.buf)
}

func (c *Chan[T]) Cap() int {
	if c == nil {
		return 0
	}
	return c.cap
}

// ---------------------------------------------------------------- select

// Case is one communication clause of a rewritten select statement.
type Case struct {
	ch   selChan
	send bool
	val  any
	def  bool
}

type selChan interface {
	isNil() bool
	ready(send bool) bool
	do(send bool, v any)
	realValue() reflect.Value
}

func (c *Chan[T]) isNil() bool { return c == nil }
func (c *Chan[T]) ready(send bool) bool {
	if c.unbuf {
		if send {
			panic("vchan: a select that sends on an unbuffered channel is not modelled")
		}
		return c.closed || c.offer != nil
	}
	if send {
		return c.closed || len(c.buf) < c.cap
	}
	return c.closed || len(c.buf) > 0
}
func (c *Chan[T]) do(send bool, v any) {
	if send {
		c.Send(v.(T))
	} else {
		c.Recv()
	}
}
func (c *Chan[T]) realValue() reflect.Value { return reflect.ValueOf(c.real) }

func RecvCase[T any](c *Chan[T]) Case      { return Case{ch: c} }
func SendCase[T any](c *Chan[T], v T) Case { return Case{ch: c, send: true, val: v} }
func DefaultCase() Case                    { return Case{def: true} }

// Select models a select statement over modelled channels: it is one blocking scheduling point,
// enabled iff some case is ready (or there is a default). Which of several ready cases fires is
// an environment choice (Go chooses at random): every alternative is explored.
func Select(cases ...Case) int {
	if !core.Controlled {
		rc := make([]reflect.SelectCase, len(cases))
		for i, c := range cases {
			switch {
			case c.def:
				rc[i] = reflect.SelectCase{Dir: reflect.SelectDefault}
			case c.ch.isNil():
				rc[i] = reflect.SelectCase{Dir: reflect.SelectRecv} // nil channel: never ready
			case c.send:
				rc[i] = reflect.SelectCase{Dir: reflect.SelectSend, Chan: c.ch.realValue(), Send: reflect.ValueOf(c.val)}
			default:
				rc[i] = reflect.SelectCase{Dir: reflect.SelectRecv, Chan: c.ch.realValue()}
			}
		}
		i, _, _ := reflect.Select(rc)
		return i
	}
	var readyBuf [8]int
	ready := func() (r []int, def int) {
		def = -1
		r = readyBuf[:0]
		for i, c := range cases {
			if c.def {
				def = i
				continue
			}
			if !c.ch.isNil() && c.ch.ready(c.send) {
				r = append(r, i)
			}
		}
		return
	}
	core.Point(core.KSelect, nil, func() bool { r, def := ready(); return len(r) > 0 || def >= 0 })
	if core.Exiting() {
		return 0
	}
	r, def := ready()
	i := def
	if len(r) > 0 {
		// Go picks among the ready cases at random: an environment answer, all explored
		i = r[core.Choose(len(r))]
	}
	if i < 0 {
		panic("vchan: select with no ready case in a sequential phase (would block forever)")
	}
	if !cases[i].def {
		core.InStep(func() { cases[i].ch.do(cases[i].send, cases[i].val) })
	}
	return i
}

// SendWith is Send for timer threads: cancelled (may be nil) makes the send give up and return
// false as soon as it holds; onSend runs atomically with the delivery.
func (c *Chan[T]) SendWith(v T, cancelled func() bool, onSend func()) bool {
	if !core.Controlled {
		c.real <- v
		return true
	}
	if c.unbuf {
		panic("vchan: SendWith on an unbuffered channel")
	}
	core.Point(core.KSend, unsafe.Pointer(c), func() bool {
		return (cancelled != nil && cancelled()) || c.closed || len(c.buf) < c.cap
	})
	if core.Exiting() {
		return false
	}
	if cancelled != nil && cancelled() {
		core.Done(core.KLoad, unsafe.Pointer(c), 0)
		return false
	}
	if c.closed || len(c.buf) >= c.cap {
		return false
	}
	if onSend != nil {
		onSend()
	}
	core.Acquire(&c.slot[c.sent%c.cap])
	var vc core.VC
	core.Release(&vc, false)
	c.buf = append(c.buf, v)
	c.clk = append(c.clk, vc)
	c.sent++
	core.Done(core.KSend, unsafe.Pointer(c), 0)
	return true
}

// TrySend is a non-blocking send (pass-through mode only: real tickers drop ticks).
func (c *Chan[T]) TrySend(v T) bool {
	select {
	case c.real <- v:
		return true
	default:
		return false
	}
}
