// Package vtime models time.After for instrumented files: the timer is a virtual thread that
// delivers into a modelled channel at a moment the scheduler chooses, so "the timeout fires
// first" and "the other case wins" are both explored and no wall clock is involved.
package vtime

import (
	"time"

	"github.com/welllog/golib/vshim/core"
	"github.com/welllog/golib/vshim/vchan"
)

func After(d time.Duration) *vchan.Chan[time.Time] {
	ch := vchan.Make[time.Time](1)
	if !core.Controlled {
		go func() { ch.Send(<-time.After(d)) }()
		return ch
	}
	core.Go(func() { ch.Send(time.Time{}) })
	return ch
}
