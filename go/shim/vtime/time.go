// Package vtime stands in for package time in instrumented files. Types and constants are
// aliases of the real ones. Under the scheduler there is no wall clock: time is an abstract
// counter that only timers and tickers advance, and those are daemon virtual threads that
// deliver at moments the scheduler chooses — "the timeout fires first" and "the other event
// wins" are both explored, deterministically and replayably.
package vtime

import (
	"time"
	"unsafe"

	"github.com/welllog/golib/vshim/core"
	"github.com/welllog/golib/vshim/vchan"
)

type (
	Duration = time.Duration
	Time     = time.Time
	Month    = time.Month
	Weekday  = time.Weekday
	Location = time.Location
)

const (
	Nanosecond  = time.Nanosecond
	Microsecond = time.Microsecond
	Millisecond = time.Millisecond
	Second      = time.Second
	Minute      = time.Minute
	Hour        = time.Hour
)

var (
	UTC   = time.UTC
	Local = time.Local
)

var epoch = time.Date(2024, 1, 1, 0, 0, 0, 0, time.UTC)

func Date(year int, month Month, day, hour, min, sec, nsec int, loc *Location) Time {
	return time.Date(year, month, day, hour, min, sec, nsec, loc)
}
func Unix(sec, nsec int64) Time { return time.Unix(sec, nsec) }

func Now() Time {
	if x := core.X; core.Controlled && x != nil {
		return epoch.Add(Duration(x.Clock))
	}
	return time.Now()
}

func Since(t Time) Duration { return Now().Sub(t) }
func Until(t Time) Duration { return t.Sub(Now()) }

// advance moves the abstract clock forward to at (never backwards).
func advance(at int64) {
	if x := core.X; x != nil && at > x.Clock {
		x.Clock = at
	}
}

func clock() int64 {
	if x := core.X; x != nil {
		return x.Clock
	}
	return 0
}

// Sleep: the calling thread passes one scheduling point and the clock jumps.
func Sleep(d Duration) {
	if !core.Controlled {
		time.Sleep(d)
		return
	}
	core.Pause()
	advance(clock() + int64(d))
}

func After(d Duration) *vchan.Chan[Time] {
	ch := vchan.Make[Time](1)
	if !core.Controlled {
		go func() { ch.Send(<-time.After(d)) }()
		return ch
	}
	at := clock() + int64(d)
	core.GoDaemon(func() {
		ch.SendWith(epoch.Add(Duration(at)), nil, func() { advance(at) })
	})
	return ch
}

// Timer: a one-shot virtual thread like After, with Stop and Reset. Stop reports whether it
// prevented the delivery.
type Timer struct {
	C *vchan.Chan[Time]

	real    *time.Timer
	f       func()
	gen     int  // incremented by Stop / Reset: an older delivery thread gives up
	pending bool // armed and not yet fired or stopped
}

func NewTimer(d Duration) *Timer {
	t := &Timer{C: vchan.Make[Time](1)}
	if !core.Controlled {
		t.real = time.AfterFunc(d, func() { t.C.TrySend(time.Now()) })
		return t
	}
	t.arm(d)
	return t
}

// AfterFunc runs f on its own (daemon) thread when the timer fires.
func AfterFunc(d Duration, f func()) *Timer {
	t := &Timer{f: f}
	if !core.Controlled {
		t.real = time.AfterFunc(d, f)
		return t
	}
	t.arm(d)
	return t
}

func (t *Timer) arm(d Duration) {
	t.gen++
	t.pending = true
	my := t.gen
	at := clock() + int64(d)
	core.GoDaemon(func() {
		stale := func() bool { return t.gen != my }
		if t.f != nil {
			core.Pause()
			if core.Exiting() || stale() {
				return
			}
			t.pending = false
			advance(at)
			t.f()
			return
		}
		t.C.SendWith(epoch.Add(Duration(at)), stale, func() { t.pending = false; advance(at) })
	})
}

func (t *Timer) Stop() bool {
	if !core.Controlled {
		return t.real.Stop()
	}
	core.Point(core.KStore, unsafe.Pointer(t), nil)
	if core.Exiting() {
		return false
	}
	was := t.pending
	t.pending = false
	t.gen++
	core.Done(core.KStore, unsafe.Pointer(t), 2)
	return was
}

func (t *Timer) Reset(d Duration) bool {
	if !core.Controlled {
		return t.real.Reset(d)
	}
	was := t.Stop()
	if core.Exiting() {
		return false
	}
	t.arm(d)
	return was
}

type Ticker struct {
	C       *vchan.Chan[Time]
	real    *time.Ticker
	quit    chan struct{}
	stopped bool
	gen     int
}

func NewTicker(d Duration) *Ticker {
	if d <= 0 {
		panic("non-positive interval for NewTicker")
	}
	t := &Ticker{C: vchan.Make[Time](1)}
	if !core.Controlled {
		t.real = time.NewTicker(d)
		t.quit = make(chan struct{})
		go func() {
			for {
				select {
				case v := <-t.real.C:
					t.C.TrySend(v)
				case <-t.quit:
					return
				}
			}
		}()
		return t
	}
	t.run(d)
	return t
}

// run starts the delivery thread of the current generation (Reset starts a new one; the old one
// gives up at its next step).
func (t *Ticker) run(d Duration) {
	my := t.gen
	start := clock()
	core.GoDaemon(func() {
		for k := int64(1); ; k++ {
			at := start + k*int64(d)
			// the tick is delivered when the scheduler runs this thread and the buffer has room
			// (a slow ticker is indistinguishable from dropped ticks for code that reads the time
			// from the tick); Stop / Reset release the thread
			if !t.C.SendWith(epoch.Add(Duration(at)), func() bool { return t.stopped || t.gen != my }, func() { advance(at) }) {
				return
			}
		}
	})
}

// Reset stops the ticker and restarts it with the period d (also after Stop).
func (t *Ticker) Reset(d Duration) {
	if d <= 0 {
		panic("non-positive interval for Ticker.Reset")
	}
	if !core.Controlled {
		t.real.Reset(d)
		return
	}
	core.Point(core.KStore, unsafe.Pointer(t), nil)
	if core.Exiting() {
		return
	}
	t.gen++
	t.stopped = false
	core.Done(core.KStore, unsafe.Pointer(t), 3)
	t.run(d)
}

func (t *Ticker) Stop() {
	if !core.Controlled {
		t.real.Stop()
		select {
		case <-t.quit:
		default:
			close(t.quit)
		}
		return
	}
	core.Point(core.KStore, unsafe.Pointer(t), nil)
	if core.Exiting() {
		return
	}
	t.stopped = true
	core.Done(core.KStore, unsafe.Pointer(t), 1)
}
