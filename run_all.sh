#!/bin/bash
# run_all.sh [quick|thorough] — runs every registered check once, sequentially, and prints one line each.
cd /verif
tier=${1:-quick}
fail=0
for id in $(python3 -c "import json;print(' '.join(c['property_id'] for c in json.load(open('MANIFEST.json'))['checks']))"); do
  s=$(date +%s)
  ./check.sh $id $tier > .work/run_$id.log 2>&1; rc=$?
  line=$(grep -m1 "^$id $tier" .work/run_$id.log)
  echo "$id exit=$rc wall=$(( $(date +%s) - s ))s  $line"
  [ $rc -ne 0 ] && { fail=1; grep "VIOLATION\|CHECK-ERROR\|KNOWN-FINDING" .work/run_$id.log | head -5; }
done
python3-vt - <<'PY'
import json,jsonschema,glob
sch=json.load(open('/root/.vp/EVIDENCE.schema.json'))
for f in sorted(glob.glob('/verif/evidence/*.json')):
    try: jsonschema.validate(json.load(open(f)),sch)
    except Exception as e: print("EVIDENCE INVALID",f,str(e)[:200])
jsonschema.validate(json.load(open('/verif/MANIFEST.json')),json.load(open('/root/.vp/MANIFEST.schema.json')))
print("schemas ok")
PY
exit $fail
