#!/bin/bash
# seed_batch.sh [parallelism] — run seed_verify.sh on every /tmp/seed-<ID>-out/<name>/ that has a patch.diff and a
# demo_test.go and is not yet kept under /verif/seeded/ (prefix r5- keeps round-5 names apart from earlier rounds).
P=${1:-4}
for d in /tmp/seed-C*-out/*/; do
  [ -f "$d/patch.diff" ] && [ -f "$d/demo_test.go" ] && [ -f "$d/notes.md" ] || continue
  id=$(echo "$d" | sed 's#/tmp/seed-\(C[0-9]*\)-out/.*#\1#'); name=$(basename "$d")
  [ -f "/verif/seeded/$id-$name/meta.json" ] && continue
  echo "$id $name"
done | xargs -r -P "$P" -L 1 bash -c '/verif/seed_verify.sh $0 $1 2>&1 | tail -1'
