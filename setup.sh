#!/bin/bash
# Build the framework offline from files on disk: instrumenter + every harness (warms the build cache).
set -u
VERIF=${VERIF_ROOT:-/verif}
export GOFLAGS=-mod=mod GOPROXY=off GOSUMDB=off GOTOOLCHAIN=local
export GOCACHE=${VERIF_GOCACHE:-/verif/.cache/go-build}
mkdir -p "$VERIF/.work/bin" "$VERIF/evidence" "$VERIF/replays" "$GOCACHE"
cd "$VERIF/go" || exit 2
if [ -d cmd/vrewrite ]; then
  go build -o "$VERIF/.work/bin/vrewrite" ./cmd/vrewrite || exit 2
fi
rc=0
for d in cmd/c[0-9]*; do
  id=$(basename "$d" | tr 'a-z' 'A-Z')
  if [ -f "specs/$id.json" ]; then
    "$VERIF/.work/bin/vrewrite" -repo "${VERIF_REPO:-/repo}" -shim "$VERIF/go/shim" -spec "specs/$id.json" -out "$VERIF/.work/$id" > "$VERIF/.work/$id.setup.log" 2>&1 || { cat "$VERIF/.work/$id.setup.log"; rc=2; continue; }
    go build -overlay "$VERIF/.work/$id/overlay.json" -o "$VERIF/.work/bin/$(basename $d)" "./$d" || rc=2
  else
    go build -o "$VERIF/.work/bin/$(basename $d)" "./$d" || rc=2
  fi
done
echo "setup done rc=$rc"
exit $rc
