#!/bin/bash
# selftest.sh — validates the machinery itself:
#  1. the instrumenter: golib's OWN tests of every instrumented package must pass when built
#     through the overlay with the shims in pass-through mode (binds "the code the explorer
#     runs" to "the code in /repo" by execution);
#  2. shim fidelity tests (zero values, misuse panics like the originals);
#  3. every seeded fault under /verif/seeded/*/ (patch.diff + meta.json): golib's own suite must
#     still pass with the patch, and every check listed in meta.json "caught_by" must exit 1
#     with a VIOLATION line, twice. Results are written to /verif/seeded/RESULTS.md.
#  4. every behaviour-preserving change under /verif/refactors/*/ (patch.diff + meta.json "checks"):
#     every listed check must stay silent (exit 0) — except entries whose meta.json carries
#     "expect": 1 (the tree still has the recorded known defect, at another call site).
# Usage: selftest.sh [rewrite|shims|engine|mutants|seeded [name...]|refactors [name...]]
set -u
VERIF=/verif
export GOFLAGS=-mod=mod GOPROXY=off GOSUMDB=off GOTOOLCHAIN=local GOCACHE=${VERIF_GOCACHE:-/verif/.cache/go-build}
what=${1:-all}; shift || true
rc=0
cd $VERIF/go
go build -o $VERIF/.work/bin/vrewrite ./cmd/vrewrite || exit 2
if [ "$what" = all ] || [ "$what" = rewrite ]; then
  for id in C01:ringz C11:listz C12:mapz C19:goz C18:algz; do
    i=${id%%:*}; p=${id##*:}
    $VERIF/.work/bin/vrewrite -repo /repo -shim $VERIF/go/shim -spec specs/$i.json -out $VERIF/.work/$i > /dev/null || { echo "REWRITE-FAIL $i"; rc=1; continue; }
    if (cd /repo && go test -overlay $VERIF/.work/$i/overlay.json -vet=off -count=1 ./$p > $VERIF/.work/$i/owntests.log 2>&1); then
      echo "rewrite-validation $i ($p): golib's own tests pass through the overlay"
    else
      echo "REWRITE-VALIDATION-FAIL $i"; tail -20 $VERIF/.work/$i/owntests.log; rc=1
    fi
  done
fi
if [ "$what" = all ] || [ "$what" = shims ]; then
  $VERIF/.work/bin/vrewrite -repo /repo -shim $VERIF/go/shim -spec specs/C19.json -out $VERIF/.work/C19 > /dev/null || rc=1
  for sp in vsync vchan; do
    # virtual packages have no directory to chdir into: build the test binary, run it here
    (cd /repo && go test -overlay $VERIF/.work/C19/overlay.json -vet=off -c -o $VERIF/.work/bin/shimtest-$sp ./vshim/$sp) && $VERIF/.work/bin/shimtest-$sp > $VERIF/.work/shimtest-$sp.log 2>&1 \
      && echo "shim fidelity $sp: ok" || { echo "SHIM-FIDELITY-FAIL $sp"; cat $VERIF/.work/shimtest-$sp.log; rc=1; }
  done
fi
if [ "$what" = all ] || [ "$what" = engine ]; then
  # E1 on tiny programs with known answers (outcomes, races, deadlock, livelock, bound, replay)
  $VERIF/.work/bin/vrewrite -repo /repo -shim $VERIF/go/shim -spec specs/C19.json -out $VERIF/.work/C19 > /dev/null || rc=1
  go build -overlay $VERIF/.work/C19/overlay.json -o $VERIF/.work/bin/e1selftest ./cmd/e1selftest && GOMAXPROCS=1 $VERIF/.work/bin/e1selftest | tail -3 || { echo "E1-SELFTEST-FAIL"; rc=1; }
fi
if [ "$what" = all ] || [ "$what" = seeded ]; then
  names="$*"; [ -z "$names" ] && names=$(ls $VERIF/seeded 2>/dev/null | grep -v RESULTS)
  for n in $names; do
    d=$VERIF/seeded/$n
    [ -f $d/patch.diff ] || continue
    for id in $(python3 -c "import json;print(' '.join(json.load(open('$d/meta.json')).get('caught_by',[])))"); do
      out=$(TESTS=${TESTS:-0} $VERIF/mutant.sh $d/patch.diff $id quick 2>&1); code=$?
      if [ $code = 1 ] && echo "$out" | grep -q "^VIOLATION property=$id"; then
        echo "seeded $n: caught by $id ($(echo "$out" | grep -m1 '^  violation' | cut -c1-160))"
      else
        echo "SEEDED-MISSED $n by $id (exit $code)"; rc=1
      fi
    done
  done
fi
if [ "$what" = all ] || [ "$what" = mutants ]; then
  grep -v '^#' $VERIF/mutants/EXPECT | sed 's/ *#.*//' | while read patch id want own envs; do
    [ -z "$patch" ] && continue
    out=$(env $envs $VERIF/mutant.sh $VERIF/mutants/$patch $id quick 2>&1); code=$?
    if [ "$code" = "$want" ]; then echo "mutant $patch: $id exit $code as expected ($(echo "$out" | grep -m1 '^  violation' | cut -c1-140))"; else echo "MUTANT-UNEXPECTED $patch: $id exit $code, expected $want"; fi
  done
fi
if [ "$what" = all ] || [ "$what" = refactors ]; then
  cd $VERIF
  names="$*"; [ "$what" = all ] && names=""
  [ -z "$names" ] && names=$(ls $VERIF/refactors 2>/dev/null)
  for n in $names; do
    d=$VERIF/refactors/$n
    [ -f $d/patch.diff ] || continue
    checks=$(python3 -c "import json;print(json.load(open('$d/meta.json'))['checks'])")
    expect=$(python3 -c "import json;print(json.load(open('$d/meta.json')).get('expect',0))")
    for c in $checks; do
      out=$($VERIF/mutant.sh $d/patch.diff $c quick 2>&1); got=$(echo "$out" | sed -n 's/^mutant exit=//p' | tail -1)
      want=0; [ "$c" = "${n%%-*}" ] && want=$expect
      if [ "$got" = "$want" ]; then echo "refactor $n: $c exit $got as expected"; else echo "REFACTOR-ALARM $n: $c exit '$got' (want $want) $(echo "$out" | grep -m1 'violation \"\|CHECK-ERROR' | cut -c1-200)"; rc=1; fi
    done
  done
fi
exit $rc
