#!/usr/bin/env python3
"""Regenerates /verif/MANIFEST.json from the table below (one entry per claimed property)."""
import json, os
HERE = os.path.dirname(os.path.abspath(__file__))
props = [json.loads(l) for l in open(os.path.join(HERE, "properties.jsonl"))]

E3 = "bounded-exhaustive enumeration of inputs / environment answers on the real code against an independent oracle (explicit enumeration, no sampling, no solver)"
E2 = "explicit-state breadth-first search over operation sequences on the real object, de-duplicated on a reflective dump of its private state, every state and transition compared with a reference model"
E1 = "stateless model checking of the real code under a controlled cooperative scheduler: every interleaving of the atomic/lock/channel steps of a small multi-goroutine harness (iterative preemption bounding, happens-before state matching), linearizability oracle + vector-clock race detection on every execution"

claimed = {
 "C05": dict(engine="E3 enum", technique=E3, design="6 C05",
   text="Bounded-exhaustive enumeration with a brute-force oracle written with package strings: every pattern set (1..3 patterns of length <= 3 over {a,b}, incl. the empty pattern; sets of 4; sets over {a,b,c}; 'cover' shapes; queue-growth family) x 4 insertion histories (build once, insert-after-build + rebuild, duplicates) x every text up to length 10 (12 thorough) and every key up to length 3; the same over the width alphabet {a, e-acute, CJK, emoji, U+FFFD}; and the width pattern sets against every byte string of length <= 4 (5) over {a,C3,A9,EF,BF,BD,FF} that is not valid UTF-8. Match <=> some non-empty pattern occurs; FindAll = one entry per (pattern, position); PrefixSearch exact; FuzzySearch sound; byte-exactness and no panic on invalid text.",
   note="Trusted: strings.Index-based oracle. Outside: patterns longer than 4 symbols, more than 4 patterns, completeness of FindAll on invalid text (not demanded)."),
 "C06": dict(engine="E3 enum", technique=E3, design="6 C06",
   text="Same enumerated space as C05 (structure alphabets {a,b}, {a,b,c}, cover shapes where a long occurrence ending late starts before several earlier disjoint ones, width alphabet, invalid byte texts). Oracle from brute-force occurrences -> maximal covered regions: ReplaceWithMask must equal the text with exactly the covered runes masked (two mask runes), Replace must parse as uncovered segments with 1..#occurrences replacement copies per region and equal the uncovered bytes for the empty replacement; no panic on any text.",
   note="Trusted: brute-force region computation. Outside: longer patterns/texts; exact output on invalid UTF-8 text (only no-panic is demanded)."),
 "C08": dict(engine="E3 enum", technique=E3, design="6 C08",
   text="Bounded-exhaustive differential enumeration against crypto/aes + crypto/cipher: CBC and GCM for key sizes 16/24/32 (and invalid 0,15,17,33) x plaintext lengths 0..48 x 3 byte patterns x dst layouts fresh / in-place as documented / disjoint halves, nonce sizes 12/1/16, AAD lengths 0/1/17; EVERY single-bit flip (and +-1 byte length change) of ciphertext, tag, nonce and AAD for lengths 0..17 (0..48 thorough) must fail; PKCS#7 un-padding for every block size 1..255 x 1..3 blocks x every last-byte value, every corrupted pad-tail position and every non-multiple length, standalone (58 M cases) and through AESCBCDecrypt with crafted blocks; guard bytes around dst.",
   note="Trusted: Go's crypto/aes, crypto/cipher as oracle. Outside: byte values beyond three patterns (the code is value-oblivious except for pad bytes, which are enumerated fully); CBC has no tamper claim."),
 "C09": dict(engine="E3 enum", technique=E3 + " with the io.Reader/io.Writer and crypto/rand.Reader answers scripted (fault sequences enumerated exhaustively)", design="6 C09",
   text="Bounded-exhaustive enumeration: Encrypt/Decrypt/SaltBySecret* for plaintext lengths 0..40 x 3 patterns x 3 secrets (string and []byte) x 3 enumerated salts (crypto/rand.Reader scripted, read failures injected) against an independent EVP_BytesToKey(MD5,1)+CBC implementation and an independent envelope parser; GCM: every bit of the binary envelope flipped, changed secret / AAD must fail; garbage: every truncation and every substitution from {A,=,!,g,0}; streams: EVERY composition of the stream into read chunks (total <= 20 bytes quick, <= 24 = 2^23 compositions thorough) x EOF with the last data or separately x empty reads, on the plaintext reader of EncryptStreamTo and the ciphertext reader of DecryptStreamTo; every Write / Read call failing in turn; longer streams with <= 2 (3) deviations.",
   note="Trusted: independent OpenSSL-format reference in the harness (cross-checked against the openssl binary on the thorough tier when present, informational). Outside: plaintexts longer than 40 bytes for the block paths, streams longer than 3 blocks."),
 "C12": dict(engine="E1 sched", technique=E1, design="6 C12",
   text="Stateless model checking of the real mapz/safekv.go + iter.go (sync.RWMutex redirected to a scheduler-owned shim, every access to the entries field and to the map content probed): ALL schedules, without preemption bound, of every unordered pair of 18 method instances (Get, Has, Contains, Len, Set x2, SetNx, SetX, Delete x2, Keys, Values, Range, All, GetWithMap, GetWithLock, Clear, Map) as two goroutines from start states {} and {a:1}, plus eight 3-goroutine mixes; callbacks pause while the lock is held. Every execution: vector-clock data-race detection (a race is reported from the clocks in whichever schedule is explored, both hiding and exposing orders are explored), linearizability to a plain map in which every call incl. Keys/Values/Range/All/GetWithMap/Map is one atomic step.",
   note="Trusted: shim RWMutex (no writer preference: superset of Go's behaviours), instrumenter. Outside: >3 goroutines, keys beyond {a,b}; Go-runtime-internal map state is seen only through the probes."),
 "C19": dict(engine="E1 sched", technique=E1, design="6 C19",
   text="Stateless model checking of the real goz/goz.go (WaitGroup, the token channel and both go statements owned by the scheduler): limits 1,2,3 and 0,-1 (-> 3); every assignment of {return, stay inside, panic, stay then panic} to 1-2 submitted functions, covering sets for limit+1 and limit+2 functions, handler set / nil, followed by a second batch of limit+1 functions and a second Wait; all schedules with <= 2 preemptions (3 thorough, unbounded where the space closes). Oracles: functions inside their body never exceed the limit, every function completed exactly once when Wait returns, handler receives exactly the panic values, no escaped panic, no deadlock (a leaked token blocks the second batch), and over all schedules of the second batch `limit` concurrent functions are reached.",
   note="Trusted: shim WaitGroup / buffered channel semantics, instrumenter (refuses select/range on instrumented channels). Outside: Wait(timeout), panicking handlers, more than 4 functions per batch, preemption bound (stated per scenario in the evidence)."),
 "C02": dict(engine="E2 space", technique=E2, design="6 C02",
   text="Explicit-state BFS to the fix-point on the real SkipList (start states NewSkipList(), the zero value, zero value after Clear()) and on SkipListWithCmp under every total order of the keys (6 orders quick, all 24 thorough): keys {1,2,3} (thorough {1..4}), values {0,1}, ops Set/SetNx (with the tower height as an enumerated answer of the private random source: heights 1,2,3 and 'capped'), SetX, Remove, Clear, node SetValue; plus ladder systems that grow the top level to 32 and shrink it back. Every transition compared with a sorted-map model, every state with Len, Head, Get/GetNode 0..5, Keys, Values, All, Range with every early stop, RangeWithStart for every start, RangeWithRange for all 36 pairs and structural invariants of the towers.",
   note="Trusted: reflective canonical dump; replacement of the private *rand.Rand by a scripted source (start-up self-test checks the menu yields distinct heights). Outside: more than 4 distinct keys."),
 "C03": dict(engine="E2 space", technique=E2, design="6 C03",
   text="Explicit-state BFS on the real RoaringBitmap from its zero value: (i) to the fix-point over Add/Remove on highs {0,1,0xFFFF} x lows {0,1,65535} (all 512 sets, three tower-height functions); (ii) threshold family: buckets pre-filled with 4094..4097 values in 4 patterns, optionally next to a second bucket, then every Add/Remove sequence of depth <= 3 (4 thorough) over 2 highs x {present, absent, min, max}; (iii) drain-to-empty and refill macro transitions. Every transition: Add/Remove result; every state: Len, Contains on alphabet+neighbours, and Iter = Range = All = sorted model with counts, early stops.",
   note="Trusted: reflective canonical dump (container type included, scratch buffer by digest); tower heights of the inner skip list scripted as a function of the bucket key. Outside: more than 3 buckets, fills far above 4097."),
 "C07": dict(engine="E3 enum", technique=E3, design="6 C07",
   text="Bounded-exhaustive enumeration: round trips on every byte string of length <= 2 (3 thorough) for all four codecs (incl. every invalid UTF-8 string -> one U+FFFD per invalid byte), every Unicode scalar value singly, boundary-alphabet strings up to length 5 (6), format shape checked by an independent scanner; parsers on every token sequence of <= 4 (5-6) tokens from per-codec menus of 14-20 tokens (well-formed, truncated, bad digit, out of range, lower case, surrogates, lone backslash) and on every raw string over small byte alphabets up to length 7-12: never panics, terminates, len(out) <= len(in), backslash-free input unchanged, all forms agree; exact decoding asserted for Format-shaped escapes between backslash-free text.",
   note="Trusted: independent reference encoder/decoder in the harness. Outside: exactness for escapes adjacent to other escapes or not in Format shape (property gives safety clauses only)."),
 "C15": dict(engine="E3 enum", technique=E3, design="6 C15",
   text="Bounded-exhaustive differential enumeration against the standard library: ParseUint on every string of length <= 4 (5 for six bases on thorough) over a 19-symbol alphabet x bases -1..37 x 13 bit sizes, plus every overflow-boundary numeral for bases 2..36 x bit sizes 1..64 in several spellings; hex encode/decode/in-place on all byte strings <= 2 (3) and texts over a 9-symbol alphabet; four base64 encodings; 8 digests, HMAC over key/data lengths 0..130, 6 stream helpers under every reader script with <= 2 (3) deviations; IPv4 round trip on 140k structured addresses (thorough: all 2^32).",
   note="Trusted: strconv, encoding/hex, encoding/base64, crypto/*. Outside: longer ParseUint strings, error texts of ParseUint."),
 "C18": dict(engine="E3 enum", technique=E3 + "; Go map iteration order inside golib is an enumerated environment answer (deviation-bounded DFS over order scripts)", design="6 C18",
   text="Bounded-exhaustive enumeration with brute-force oracles over all 2^n subsets: Knapsack on every ordered item list of <= 4 (5) items x every limit x 4 tie-breaker variants; FindDpSolvers/Best/BestAllowMinOverflow on every value list of <= 6 (7) values x every maxValue x allowOverOnce x tie-breakers; every simple graph on <= 5 (6) vertices through GetMaximalCliques and BronKerbosch with every permutation of P. algz/dp.go and graph.go are rebuilt from the working tree with every range-over-map redirected to an environment: every script of map iteration orders with <= 1 (2 thorough) deviations from ascending order is executed for every case.",
   note="Trusted: brute-force subset/clique enumeration; the range-over-map rewrite (golib's own tests pass through it). Outside: larger inputs; more than 2 order deviations per execution."),
 "C01": dict(engine="E1 sched", technique=E1, design="6 C01",
   text="Stateless model checking of the real ringz/sync.go (atomics, Gosched and every plain field/element access instrumented at check time): for capacities 2 and 4, every fill level, five rotations (two with the 32-bit counter wrap inside the concurrent window) and 8 thread programs (push|push|pop, push,push|pop,pop, push|pop|push,pop, push|pop|observer, pop|pop|push, three pushers, three poppers, PushWait/PopWait spinning and zero-wait pairs) ALL schedules are enumerated without a preemption bound (2 pushers x2 + popper x2 on capacity 2: bound 3 quick, unbounded thorough). Every execution: linearizability to FIFO(Cap) with the property's relaxations, drain epilogue, exact Len/IsEmpty/IsFull at quiescence, progress of pushers-only/poppers-only, vector-clock data-race detection, deadlock/livelock/panic; 0<=Len<=Cap probed at every reachable state with all threads frozen.",
   note="Trusted: the shim's model of sync/atomic (sequentially consistent, one step per operation), 128-bit state hashing, the instrumenter (validated by running golib's own tests through the overlay). Outside: >3 goroutines, >2 operations each, capacity >4, positive wait durations (real ticker)."),
 "C04": dict(engine="E2 space", technique=E2, design="6 C04",
   text="Explicit-state BFS to the fix-point on the real heapz.Heap (with live, stale and foreign *Element handles), heapz.Slice and the generic Init/Push/Pop/Remove/Fix functions: size cap 6 (7 thorough), values {0,1,2} (ties everywhere), comparators < and > (plus a tie-making strict weak order on thorough), all 121 start slices of length <= 4; every transition compared with a sorted-multiset + handle-table model, every state with Len, Peek, Index() of every handle, heap order of Slice.Values / the container, PopAll sortedness.",
   note="Trusted: reflective canonical dump; the model follows the implementation's tie-breaking. Outside: sizes > 7, comparators that are not strict weak orders, nil handles."),
 "C11": dict(engine="E1 sched", technique=E1, design="6 C11",
   text="Stateless model checking of the real listz/sync_list.go (atomics incl. unsafe.Pointer operations, Gosched and plain node accesses instrumented at check time): initial content 0..2 x 9 thread programs (push|push|pop, push,push|pop,pop, push|pop|Len,Len, push,pop|push,pop, push|pop|push,pop, three pushers, three poppers, PopWait(0), 2x2 pushers + popper x2) plus PopWait(-1) consumers; ALL schedules without a preemption bound (the 3x2 program: bound 3 quick, unbounded thorough), spinning pushers scheduled by the fair-yield rule. Every execution: linearizability to an unbounded FIFO with the property's relaxations, drain epilogue, exact Len at quiescence, vector-clock data-race detection, deadlock/livelock (Push always completes)/panic; Len()>=0 probed at every reachable state, Len()>=number of poppable values by a destructive probe on a re-execution of every reachable state.",
   note="Trusted: as C01. Outside: >3 goroutines, >2 operations each, positive PopWait durations."),
 "C13": dict(engine="E2 space", technique=E2, design="6 C13",
   text="Explicit-state BFS to the fix-point: two real DLists run in lock-step with two container/list lists (differential oracle) over Push/Insert/Move/Remove/PushBackDList/PushFrontDList(self or other)/node variants/Init with live, removed and foreign handles, size cap 5 (6 thorough), zero-value and constructed start states; SList against a slice model over Get/Remove/InsertAt/InsertNodeAt/Swap for indices -1..len+1 and the front/back operations, cap 6 (8). Every state: both traversals, Len, All, Next/Prev of every handle.",
   note="Trusted: container/list as oracle; reflective canonical dump with element values renamed by first appearance (generic code cannot inspect them). Outside: lists longer than the cap; handles that were in the list before Init (container/list itself misbehaves there, nothing is claimed)."),
 "C14": dict(engine="E3 enum + E2 space", technique=E3 + "; FlexSlice: " + E2, design="6 C14",
   text="Bounded-exhaustive enumeration: Diff/Intersect/Unique/UniqueByKey/Filter and their InPlace variants on all slices over {0,1,2} of length <= 5 x <= 3 (thorough {0..3}, <= 6 x <= 4), nil vs empty, 7 dst aliasing layouts; Chunk/ChunkProcess for sizes -1..len+2 with an error injected at every callback index; SubSlice/Copy/Remove/Index/Equal for every argument in -2..len+2; freshness of Copy/Values in both directions. FlexSlice: BFS to the fix-point over Append/Prepend(0-3 values)/Get/Remove/Pop/Shift/SubSlice with the state key (len, cap, contents) so that growth, both Prepend paths and the shrink threshold are crossed (size cap 20, thorough 48), from the zero value and from every make([]T,l,c) root.",
   note="Trusted: definitions written as linear scans. Outside: longer slices, element types other than int."),
 "C10": dict(engine="E2 space", technique=E2, design="6 C10",
   text="Explicit-state model checking on the real objects: Ring — BFS to the fix-point from capacities 1..4 over Push/Pop/Peek/PushWithExpand/Recap(-1..9)/Init, the canonical key holds head/tail/cap so every rotation x fill level at the moment of Recap/PushWithExpand is a distinct visited state; SyncRing (single goroutine) — Cap() for requested 1..1025 and 2^k-1,2^k,2^k+1 up to 2^20, and BFS over Push/Pop to depth 3*cap for capacities 2,4,8 from start states whose 32-bit counters were teleported to every position within 2*cap of 2^32 (wrap inside the window) and to 2^31+-1; every transition compared with a bounded FIFO model, every state with Len/IsEmpty/IsFull/Cap/Peek and a full drain. Thorough additionally performs 2^32+64 honest push/pop pairs.",
   note="Trusted: the reflective canonical dump (isomorphic private graphs have identical futures); the counter teleport, itself validated against honest stepping (k <= 4*cap every run, 2^32+65 on thorough). Outside: capacities beyond 16 (Ring) / 8 (SyncRing behaviour), zero-value Ring."),
 "C17": dict(engine="E3 enum", technique=E3, design="6 C17",
   text="Model checking by bounded-exhaustive enumeration: every string of <= 5 runes (thorough 7) over {a,B,e-acute,CJK,emoji,_} and every byte string of <= 5 (7) bytes over {61,FF,C3,A9,E4,B8,F0,9F}, each with every start/length/end/limit argument from 0 to beyond the length (length -1 for Sub), 4 masks, 3 predicates; rune-slice definitions as oracle on valid text, no-panic on every text; snake/camel round trip on every identifier w(_w)* of <= 3 words over {a,ab,a1,b2c} with both firstUp flags.",
   note="Trusted: unicode/utf8 and []rune conversions as oracle. Outside: strings longer than 7 symbols, runes outside the alphabet, negative arguments (not covered by the property)."),
 "C20": dict(engine="E3 enum", technique=E3, design="6 C20",
   text="Model checking by bounded-exhaustive enumeration: ParseBase32 on every byte string of length <= 3 over all 256 byte values and every single-byte corruption of longer numerals; Base32/Base2/Base36/String round trips for every ID below 2^20 (2^24 thorough) and all 2^k-1,2^k,2^k+1; IdGenerator for every randBit -1..24 x 6 start times x 5 scripted crypto/rand.Reader behaviours against a measured time bracket; StrGenerator for 11 character-set sizes x every script of <= 3 random-source words x n 0..20; CountGenerator for all rule pairs (triples thorough) x ids x elapsed times.",
   note="Trusted: math/big numerals as oracle; wall clock only through a bracket measured around each call. Outside the bound: IDs between 2^24 and 2^63 other than powers of two +-1, ParseBase32 inputs longer than 3 bytes with more than one invalid byte."),
}

checks = []
for p in props:
    pid = p["id"]
    if pid not in claimed:
        continue
    c = claimed[pid]
    checks.append({
        "property_id": pid,
        "quick_cmd": f"./check.sh {pid} quick",
        "thorough_cmd": f"./check.sh {pid} thorough",
        "evidence_file": f"/verif/evidence/{pid}.json",
        "replay_cmd_template": f"./check.sh {pid} quick --replay {{path}}",
        "engine": c["engine"],
        "level_claimed": {"category": "model_checking", "text": c["text"], "design_ref": "DESIGN.md §" + c["design"]},
        "level_note": c["note"],
        "technique": c["technique"],
    })
na = [{"property_id": p["id"], "reason": "check not built yet in this round (planned, see DESIGN.md §6); model checking does apply"} for p in props if p["id"] not in claimed]
m = {
 "version": 1,
 "setup_cmd": "./setup.sh",
 "hooks": {
   "guard": "verif",
   "enable": "no hook lives in /repo: instrumentation is generated at check time from the current working tree by /verif/go/cmd/vrewrite and applied with `go build -overlay` (shim packages appear at the virtual path github.com/welllog/golib/vshim/...)",
   "baseline_off_cmd": "cd /repo && go test -vet=off -count=1 ./...",
   "source_commits": [],
   "add_only": True,
 },
 "engines": [
   {"name": "E1 sched", "path": "/verif/go/sched", "serves_properties": ["C01", "C11", "C12", "C19"], "kind_free_text": "controlled scheduler + stateless DFS schedule explorer over the instrumented real code"},
   {"name": "E2 space", "path": "/verif/go/space", "serves_properties": ["C02", "C03", "C04", "C10", "C13", "C16"], "kind_free_text": "explicit-state BFS on real objects with reflective canonical state"},
   {"name": "E3 enum", "path": "/verif/go/common", "serves_properties": ["C05", "C06", "C07", "C08", "C09", "C14", "C15", "C17", "C18", "C20"], "kind_free_text": "bounded-exhaustive input / environment-answer enumeration"},
 ],
 "checks": checks,
 "not_applicable": na,
 "notes": "Every check: exit 0 held / 1 VIOLATION / 2 the check itself could not run. Known findings: /verif/known_findings.jsonl.",
}
json.dump(m, open(os.path.join(HERE, "MANIFEST.json"), "w"), indent=1)
print("checks:", len(checks), "not claimed:", len(na))
