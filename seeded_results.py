#!/usr/bin/env python3
"""Writes /verif/seeded/RESULTS.md from the meta.json files."""
import json, glob, os
rows=[]
for m in sorted(glob.glob('/verif/seeded/*/meta.json')):
    d=json.load(open(m)); name=os.path.basename(os.path.dirname(m))
    c=d['confirmed']
    ok = c['golib_suite_passes_with_patch'] and c['demo_passes_without_patch'] and c['demo_fails_with_patch']
    rows.append((d['property'], name, 'yes' if ok else 'NO', ', '.join(d['caught_by']) or '—', d.get('first_violation','').strip().replace('|','\\|')[:150], d.get('note','')))
out=["# Seeded property-breaking changes","",
"Each directory holds an independently written change (`patch.diff`), its demonstration (`demo_test.go`), the author's `notes.md` (what it needs in order to manifest) and `meta.json` (what was run here: golib's suite with the patch, the demonstration with and without it, the property's check against a scratch copy).","",
"| property | change | confirmed (suite passes, demo fails with / passes without) | caught by | first violation line of the check | remark |","|---|---|---|---|---|---|"]
for r in rows: out.append("| %s | %s | %s | %s | %s | %s |"%r)
caught=sum(1 for r in rows if r[3]!='—')
out += ["", f"{caught} of {len(rows)} changes are reported by the quick tier of their property's check."]
open('/verif/seeded/RESULTS.md','w').write('\n'.join(out)+'\n')
print(f"{caught}/{len(rows)}")
