#!/bin/bash
# refactor_verify.sh <ID> <name> — a behaviour-preserving change written by an independent sub-agent
# (/tmp/ref-<ID>-out/<name>/{patch.diff,notes.md}): golib's suite must pass with it and every check
# whose code it touches must stay silent (exit 0). Result is kept under /verif/refactors/<ID>-<name>/.
id=$1; name=$2; src=/tmp/ref-$id-out/$name
[ -f "$src/patch.diff" ] || { echo "no $src/patch.diff"; exit 2; }
dst=/verif/refactors/$id-$name; mkdir -p "$dst"; cp "$src/patch.diff" "$src/notes.md" "$dst/" 2>/dev/null
dirs=$(grep '^+++ b/' "$src/patch.diff" | sed 's#^+++ b/##; s#/.*##' | sort -u)
checks="$id"
for d in $dirs; do
  case $d in
    ringz) checks="$checks C01 C10";; listz) checks="$checks C02 C03 C11 C13";; setz|dsz) checks="$checks C03 C16";;
    heapz) checks="$checks C04";; algz) checks="$checks C05 C06 C18";; strz) checks="$checks C07 C15 C17 C09";;
    cryptz) checks="$checks C08 C09";; hashz) checks="$checks C15 C20";; mapz) checks="$checks C12";;
    slicez) checks="$checks C14";; goz) checks="$checks C19";; randz) checks="$checks C20";;
    typez) checks="$checks C15 C08";;
  esac
done
checks=$(echo $checks | tr ' ' '\n' | sort -u | tr '\n' ' ')
first=1; res=""; alarm=0
for c in $checks; do
  if [ $first = 1 ]; then out=$(TESTS=1 ./mutant.sh "$src/patch.diff" $c quick 2>&1); first=0; else out=$(./mutant.sh "$src/patch.diff" $c quick 2>&1); fi
  rc=$(echo "$out" | sed -n 's/^mutant exit=//p' | tail -1)
  echo "$out" > "$dst/check_$c.txt"
  if echo "$out" | grep -q "golib's own tests FAIL\|tests fail"; then res="$res suite-fails"; fi
  res="$res $c=$rc"
  [ "$rc" != "0" ] && alarm=1
done
echo "{\"property\":\"$id\",\"name\":\"$name\",\"checks\":\"$checks\",\"result\":\"$res\",\"alarm\":$alarm}" > "$dst/meta.json"
echo "$id $name:$res $( [ $alarm = 1 ] && echo ALARM )"
[ $alarm = 1 ] && grep -h "violation \"\|CHECK-ERROR\|does not apply" "$dst"/check_*.txt | cut -c1-300 | head -5
exit 0
